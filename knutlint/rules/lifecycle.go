package rules

import (
	"fmt"
	"go/token"
	"go/types"
	"sort"
	"strings"

	"golang.org/x/tools/go/ssa"

	"knutlint/core"
)

var dayKinds = []string{"Prices", "Openings", "Transactions", "Assertions", "Closings"}

// kindReads returns, for a function, the blocks in which each per-kind slice
// of the given Day value is loaded.
func kindReads(p *core.Prog, fn *ssa.Function, isDay func(ssa.Value) bool) map[string][]ssa.Instruction {
	res := map[string][]ssa.Instruction{}
	dayT := p.NamedType(pkgJournal, "Day")
	core.EachInstr(fn, func(ins ssa.Instruction) {
		fa, ok := ins.(*ssa.FieldAddr)
		if !ok {
			return
		}
		fv := core.FieldOf(fa)
		if fv == nil || !core.FieldIs(fv, dayT, fv.Name()) {
			return
		}
		if isDay != nil && !isDay(fa.X) {
			return
		}
		if onlyMeasured(fa) {
			return // len(d.Kind) alone visits no element
		}
		for _, k := range dayKinds {
			if fv.Name() == k {
				res[k] = append(res[k], fa)
			}
		}
	})
	return res
}

// onlyMeasured: every use of the slice field is a load whose value only
// reaches len/cap (the elements are not visited).
func onlyMeasured(fa *ssa.FieldAddr) bool {
	if fa.Referrers() == nil || len(*fa.Referrers()) == 0 {
		return false
	}
	for _, r := range *fa.Referrers() {
		ld, ok := r.(*ssa.UnOp)
		if !ok || ld.Op != token.MUL || ld.Referrers() == nil {
			return false
		}
		for _, u := range *ld.Referrers() {
			call, ok := u.(*ssa.Call)
			if !ok {
				if _, isDbg := u.(*ssa.DebugRef); isDbg {
					continue
				}
				return false
			}
			b, ok := call.Call.Value.(*ssa.Builtin)
			if !ok || (b.Name() != "len" && b.Name() != "cap") {
				return false
			}
		}
	}
	return true
}

func instrReaches(a, b ssa.Instruction) bool {
	if a.Block() == b.Block() && core.InstrIndex(a) < core.InstrIndex(b) {
		return true
	}
	return core.ReachableBlocks(a.Block(), nil)[b.Block()]
}

// RuleDProcessOrder — in the day processor (the function that reads all five
// per-kind slices of its Day parameter) the kinds are visited in the order
// prices, openings, transactions, assertions, closings on every path; the
// DayStart callback is invoked before, the DayEnd callback after all of them.
func RuleDProcessOrder(c *core.Ctx) {
	const rule = "D-process-order"
	p := c.P
	// locate by shape
	var proc *ssa.Function
	for _, fn := range p.SrcFuncs() {
		if core.PkgPathOf(fn) != pkgJournal || len(fn.Params) < 1 {
			continue
		}
		var dayParam *ssa.Parameter
		for _, prm := range fn.Params {
			if pt, ok := prm.Type().Underlying().(*types.Pointer); ok && isNamed(pt.Elem(), p.NamedType(pkgJournal, "Day")) {
				dayParam = prm
			}
		}
		if dayParam == nil {
			continue
		}
		reads := kindReads(p, fn, func(v ssa.Value) bool { return v == ssa.Value(dayParam) })
		if len(reads) == 5 {
			// and it invokes callbacks loaded from a Processor: its receiver is one
			recvIsProcessor := false
			if recv := fn.Signature.Recv(); recv != nil {
				if pt, ok := recv.Type().Underlying().(*types.Pointer); ok && isNamed(pt.Elem(), p.NamedType(pkgJournal, "Processor")) {
					recvIsProcessor = true
				}
			}
			if !recvIsProcessor {
				continue // e.g. a printer of the day's directives
			}
			if proc != nil {
				c.Ob(rule, "day processor:unique", fn.Pos(), core.FuncName(fn), core.Undecided, "more than one function reads all five per-kind slices of its Day parameter")
			}
			proc = fn
		}
	}
	if proc == nil {
		c.Anchor(rule, "the day processor (a function in lib/journal reading all five per-kind slices of its *Day parameter)")
		return
	}
	var dayParam ssa.Value
	for _, prm := range proc.Params {
		if pt, ok := prm.Type().Underlying().(*types.Pointer); ok && isNamed(pt.Elem(), p.NamedType(pkgJournal, "Day")) {
			dayParam = prm
		}
	}
	reads := kindReads(p, proc, func(v ssa.Value) bool { return v == dayParam })
	for i := 0; i < len(dayKinds); i++ {
		for j := i + 1; j < len(dayKinds); j++ {
			bad := ""
			for _, later := range reads[dayKinds[j]] {
				for _, earlier := range reads[dayKinds[i]] {
					if instrReaches(later, earlier) {
						bad = fmt.Sprintf("a path leads from the %s loop (%s) back to the %s loop (%s)", dayKinds[j], p.Pos(core.NearPos(later)), dayKinds[i], p.Pos(core.NearPos(earlier)))
					}
				}
			}
			key := fmt.Sprintf("%s:%s before %s", core.FuncName(proc), dayKinds[i], dayKinds[j])
			if bad == "" {
				c.Ob(rule, key, proc.Pos(), core.FuncName(proc), core.Discharged, "no path from the "+dayKinds[j]+" loop to the "+dayKinds[i]+" loop")
			} else {
				c.Ob(rule, key, proc.Pos(), core.FuncName(proc), core.Violated, bad+": the intra-day evaluation order prices, opens, transactions, assertions, closes is not kept")
			}
		}
	}
	// DayStart before, DayEnd after
	callOf := func(field string) []ssa.Instruction {
		var res []ssa.Instruction
		core.EachInstr(proc, func(ins ssa.Instruction) {
			call, ok := ins.(*ssa.Call)
			if !ok {
				return
			}
			ld, ok := call.Call.Value.(*ssa.UnOp)
			if !ok {
				return
			}
			if fa, ok := ld.X.(*ssa.FieldAddr); ok && core.FieldOf(fa).Name() == field {
				res = append(res, call)
			}
		})
		return res
	}
	starts, ends := callOf("DayStart"), callOf("DayEnd")
	for name, calls := range map[string][]ssa.Instruction{"DayStart": starts, "DayEnd": ends} {
		key := fmt.Sprintf("%s:%s position", core.FuncName(proc), name)
		if len(calls) != 1 {
			c.Ob(rule, key, proc.Pos(), core.FuncName(proc), core.Undecided, fmt.Sprintf("expected one invocation of the %s callback, found %d", name, len(calls)))
			continue
		}
		bad := ""
		for _, k := range dayKinds {
			for _, rd := range reads[k] {
				if name == "DayStart" && instrReaches(rd, calls[0]) {
					bad = "the " + k + " loop can run before DayStart"
				}
				if name == "DayEnd" && instrReaches(calls[0], rd) {
					bad = "the " + k + " loop can run after DayEnd"
				}
			}
		}
		if bad == "" {
			c.Ob(rule, key, calls[0].Pos(), core.FuncName(proc), core.Discharged, name+" is invoked "+map[string]string{"DayStart": "before", "DayEnd": "after"}[name]+" all per-kind loops")
		} else {
			c.Ob(rule, key, calls[0].Pos(), core.FuncName(proc), core.Violated, bad)
		}
	}
	// every kind is visited on every day: the loop over a kind is control-dependent
	// only on error tests and on the nil test of a callback of the processor
	procT := p.NamedType(pkgJournal, "Processor")
	for _, k := range dayKinds {
		for _, rd := range reads[k] {
			key := fmt.Sprintf("%s:%s are visited on every day", core.FuncName(proc), k)
			bad := ""
			for _, b := range proc.Blocks {
				iff, ok := b.Instrs[len(b.Instrs)-1].(*ssa.If)
				if !ok {
					continue
				}
				if ctl, _ := core.Controls(b, rd.Block()); !ctl {
					continue
				}
				if isErrTest(iff.Cond) || core.IsLoopExitTest(b, rd.Block()) {
					continue
				}
				if bo, ok := iff.Cond.(*ssa.BinOp); ok && (core.IsNilConst(bo.X) || core.IsNilConst(bo.Y)) {
					v := bo.X
					if core.IsNilConst(v) {
						v = bo.Y
					}
					if ld, ok := v.(*ssa.UnOp); ok {
						if fa, ok := ld.X.(*ssa.FieldAddr); ok && procT != nil && core.FieldIs(core.FieldOf(fa), procT, core.FieldOf(fa).Name()) {
							continue
						}
					}
				}
				bad = describeValue(p, iff.Cond)
			}
			if bad == "" {
				c.Ob(rule, key, rd.Pos(), core.FuncName(proc), core.Discharged, "the loop depends only on error tests and on its callback being set")
			} else {
				c.Ob(rule, key, rd.Pos(), core.FuncName(proc), core.Violated, "whether the "+k+" of a day are dispatched depends on "+bad+": a day can be skipped with directives on it (e.g. a close that is alone on its day never reaches the checker)")
			}
		}
	}
	c.Floor(rule, 12)
}

// successReturns: return instructions whose error result is the nil constant.
func successReturns(fn *ssa.Function) []*ssa.Return {
	var res []*ssa.Return
	core.EachInstr(fn, func(ins ssa.Instruction) {
		ret, ok := ins.(*ssa.Return)
		if !ok {
			return
		}
		for _, rv := range ret.Results {
			if core.IsErrorType(rv.Type()) {
				if core.IsNilConst(rv) {
					res = append(res, ret)
				} else if phi, ok := rv.(*ssa.Phi); ok {
					for _, e := range phi.Edges {
						if core.IsNilConst(e) {
							res = append(res, ret)
							break
						}
					}
				}
				return
			}
		}
	})
	return res
}

// mustPass: every path from the entry of fn to a success return passes an
// instruction satisfying target. Returns a description of an escaping return.
func mustPass(p *core.Prog, fn *ssa.Function, target func(ssa.Instruction) bool) (string, int) {
	targets := map[*ssa.BasicBlock]int{} // block -> index of first target
	n := 0
	for _, b := range fn.Blocks {
		for i, ins := range b.Instrs {
			if target(ins) {
				n++
				if _, ok := targets[b]; !ok {
					targets[b] = i
				}
			}
		}
	}
	avoid := map[*ssa.BasicBlock]bool{}
	for b := range targets {
		avoid[b] = true
	}
	reach := core.ReachableBlocks(fn.Blocks[0], avoid)
	reach[fn.Blocks[0]] = true
	if _, ok := targets[fn.Blocks[0]]; ok {
		delete(reach, fn.Blocks[0])
		reach = map[*ssa.BasicBlock]bool{}
	}
	for _, ret := range successReturns(fn) {
		b := ret.Block()
		if idx, isT := targets[b]; isT && idx < core.InstrIndex(ret) {
			continue
		}
		if reach[b] {
			return "the success return at " + p.Pos(core.NearPos(ret)) + " is reachable without it", n
		}
	}
	return "", n
}

// RuleDOpenClose — the checker's four callbacks keep the set of open accounts:
// open adds, close removes, and all four consult the set (sibling agreement);
// the processor literal binds all four (K-proc-literal).
func RuleDOpenClose(c *core.Ctx) {
	const rule = "D-open-close"
	p := c.P
	checkFn := p.Func(pkgCheck, "Checker.Check")
	accounts := p.Field(pkgCheck, "Checker", "accounts")
	if checkFn == nil || accounts == nil {
		c.Anchor(rule, "check.Checker.Check / Checker.accounts")
		return
	}
	// the literal returned by Check
	var lit ssa.Value
	core.EachInstr(checkFn, func(ins ssa.Instruction) {
		if ret, ok := ins.(*ssa.Return); ok && len(ret.Results) == 1 {
			lit = ret.Results[0]
		}
	})
	if lit == nil {
		c.Anchor(rule, "the Processor literal returned by Checker.Check")
		return
	}
	cbs := processorLiteral(p, lit)
	var isSetCallN func(ins ssa.Instruction, method string, depth int) bool
	isSetCall := func(ins ssa.Instruction, method string) bool { return isSetCallN(ins, method, 0) }
	isSetCallN = func(ins ssa.Instruction, method string, depth int) bool {
		call, ok := ins.(ssa.CallInstruction)
		if !ok {
			return false
		}
		callee := call.Common().StaticCallee()
		// a helper of the checker that makes the call (isOpen(a) { return accounts.Has(a) })
		if callee != nil && core.PkgPathOf(callee) == pkgCheck && callee.Blocks != nil && depth < 2 {
			found := false
			core.EachInstr(callee, func(i2 ssa.Instruction) {
				if isSetCallN(i2, method, depth+1) {
					found = true
				}
			})
			return found
		}
		if callee == nil || core.PkgPathOf(callee) != pkgSet || core.BaseName(callee) != method {
			return false
		}
		// receiver: the checker's accounts set
		found := false
		w := &core.Walker{P: p, Visit: func(v ssa.Value) bool {
			if fa, ok := v.(*ssa.FieldAddr); ok && core.FieldOf(fa) == accounts {
				found = true
			}
			return !found
		}}
		w.Origin(call.Common().Args[0])
		return found
	}
	want := map[string][]string{
		"Open":    {"Has", "Add"},
		"Posting": {"Has"},
		"Balance": {"Has"},
		"Close":   {"Has", "Remove"},
	}
	var names []string
	for n := range want {
		names = append(names, n)
	}
	sort.Strings(names)
	for _, name := range names {
		fn := cbs[name]
		key := "check.Checker.Check:" + name + " bound"
		if fn == nil {
			c.Ob("K-proc-literal", key, checkFn.Pos(), core.FuncName(checkFn), core.Violated,
				"the checker's processor does not bind the "+name+" callback: "+map[string]string{"Open": "opens are never recorded", "Posting": "bookings on closed or unopened accounts are accepted", "Balance": "balance assertions are never evaluated", "Close": "closes are never checked and closed accounts stay open"}[name])
			continue
		}
		c.Ob("K-proc-literal", key, fn.Pos(), core.FuncName(fn), core.Discharged, name+" is bound to "+core.FuncName(fn))
		for _, m := range want[name] {
			k2 := fmt.Sprintf("%s:accounts.%s on every success path", core.FuncName(fn), m)
			esc, n := mustPass(p, fn, func(ins ssa.Instruction) bool { return isSetCall(ins, m) })
			switch {
			case n == 0:
				c.Ob(rule, k2, fn.Pos(), core.FuncName(fn), core.Violated, "the "+name+" callback never calls accounts."+m+": "+map[string]string{
					"Has":    "the account's open state is not consulted, so a directive on an unopened or closed account (or a second open) is accepted",
					"Add":    "an opened account is not recorded as open",
					"Remove": "a closed account stays open, so later bookings on it are accepted",
				}[m])
			case esc != "":
				c.Ob(rule, k2, fn.Pos(), core.FuncName(fn), core.Violated, "accounts."+m+" is not on every success path of the "+name+" callback: "+esc)
			default:
				c.Ob(rule, k2, fn.Pos(), core.FuncName(fn), core.Discharged, "every success path passes accounts."+m)
			}
		}
	}
	c.Floor(rule, 6)
	c.Floor("K-proc-literal", 4)
}

// isCheckerCtor: the stage's constructor is check.Check or Checker.Check.
func isCheckerStage(p *core.Prog, st *stage) bool {
	if st.ctor == nil {
		return false
	}
	n := originName(st.ctor)
	return n == "lib/journal/check.Check" || n == "(*lib/journal/check.Checker).Check"
}

// RuleDCheckFirst — every command that loads a journal with journal.FromPath
// runs the checker in its first Journal.Process call, before any stage that
// looks at openings, transactions, assertions or closings.
func RuleDCheckFirst(c *core.Ctx) {
	const rule = "D-check-first"
	p := c.P
	fromPath := p.Func(pkgJournal, "FromPath")
	if fromPath == nil {
		c.Anchor(rule, "journal.FromPath")
		return
	}
	pls := pipelines(c)
	n := 0
	loads := map[*ssa.Function]*ssa.Call{}
	for _, fn := range p.SrcFuncs() {
		core.EachInstr(fn, func(ins ssa.Instruction) {
			if call, ok := ins.(*ssa.Call); ok && call.Call.StaticCallee() == fromPath {
				loads[fn] = call
			}
		})
	}
	// per command that loads a journal (in its run function or in a helper of the
	// command packages): the Process calls of the command's own code
	type unit struct {
		name string
		load *ssa.Call
		fns  map[*ssa.Function]bool
	}
	var units []unit
	seenFn := map[*ssa.Function]bool{}
	for _, cmd := range core.Commands(c) {
		if cmd.Run == nil {
			continue
		}
		reach := p.ReachLexical(cmd.Run)
		var load *ssa.Call
		fns := map[*ssa.Function]bool{}
		for fn := range reach {
			if !strings.HasPrefix(core.PkgPathOf(fn), core.Module+"/cmd") {
				continue
			}
			fns[fn] = true
			if l := loads[fn]; l != nil {
				load = l
			}
		}
		if load == nil {
			continue
		}
		for fn := range fns {
			seenFn[fn] = true
		}
		units = append(units, unit{core.FuncName(cmd.Run), load, fns})
	}
	// functions that load a journal without being part of a command (library helpers, tests excluded)
	for fn, l := range loads {
		if !seenFn[fn] {
			units = append(units, unit{core.FuncName(fn), l, map[*ssa.Function]bool{fn: true}})
		}
	}
	sort.Slice(units, func(i, j int) bool { return units[i].name < units[j].name })
	for _, u := range units {
		load := u.load
		n++
		key := u.name + ":checker in the first Process call"
		fnName := u.name
		var mine []*pipeline
		for _, pl := range pls {
			if u.fns[pl.fn] {
				mine = append(mine, pl)
			}
		}
		if len(mine) == 0 {
			c.Ob(rule, key, load.Pos(), fnName, core.Violated, "the command loads a journal but never processes it with the checker")
			continue
		}
		first := mine[0]
		for _, pl := range mine[1:] {
			if pl.fn == first.fn && core.Dominates(pl.call, first.call) {
				first = pl
			}
		}
		if !first.resolved {
			c.Ob(rule, key, first.call.Pos(), fnName, core.Undecided, "processor list not resolved: "+first.why)
			continue
		}
		idx := -1
		for i, st := range first.stages {
			if isCheckerStage(p, st) {
				idx = i
				break
			}
		}
		if idx < 0 {
			c.Ob(rule, key, first.call.Pos(), fnName, core.Violated, "the first Journal.Process call of this command does not contain the checker: an ill-formed journal (booking on a closed account, failed assertion) is reported on as if it were valid")
			continue
		}
		bad := ""
		for _, st := range first.stages[:idx] {
			for cb := range st.callbacks {
				switch cb {
				case "DayStart", "DayEnd", "Price":
				default:
					bad = "stage " + st.name() + " (callback " + cb + ") runs before the checker"
				}
			}
		}
		// no stage before the checker changes what the checker is going to look at:
		// the day's openings, transactions, assertions and closings
		for _, st := range first.stages[:idx] {
			for _, f := range st.funcs() {
				core.EachInstr(f, func(ins ssa.Instruction) {
					sto, ok := ins.(*ssa.Store)
					if !ok {
						return
					}
					fa, ok := sto.Addr.(*ssa.FieldAddr)
					if !ok {
						return
					}
					fv := core.FieldOf(fa)
					if fv == nil || fv.Pkg() == nil || fv.Pkg().Path() != pkgJournal {
						return
					}
					switch fv.Name() {
					case "Openings", "Transactions", "Assertions", "Closings":
						if owner := p.Field(pkgJournal, "Day", fv.Name()); owner == fv {
							bad = "stage " + st.name() + " assigns Day." + fv.Name() + " (" + p.Pos(sto.Pos()) + ") before the checker has seen the day: the checker judges a different journal than the one that was loaded"
						}
					}
				})
			}
		}
		if bad != "" {
			c.Ob(rule, key, first.call.Pos(), fnName, core.Violated, bad)
			continue
		}
		c.Ob(rule, key, first.call.Pos(), fnName, core.Discharged, fmt.Sprintf("checker is stage %d of the first Process call; only day/price callbacks precede it, none of which assigns the day's directives", idx+1))
	}
	c.Floor(rule, 6)
}

// RuleKSortedDays — Journal.Days is only ever assigned a slice sorted by a
// comparator that reads Day.Date (so days are processed in ascending order
// whatever the file order).
func RuleKSortedDays(c *core.Ctx) {
	const rule = "K-sorted-days"
	p := c.P
	days := p.Field(pkgJournal, "Journal", "Days")
	if days == nil {
		c.Anchor(rule, "journal.Journal.Days")
		return
	}
	oa := newOrderAnalysis(c)
	for _, fn := range p.SrcFuncs() {
		core.EachInstr(fn, func(ins ssa.Instruction) {
			st, ok := ins.(*ssa.Store)
			if !ok {
				return
			}
			fa, ok := st.Addr.(*ssa.FieldAddr)
			if !ok || core.FieldOf(fa) != days {
				return
			}
			key := core.FuncName(fn) + ":Journal.Days = " + describeValue(p, st.Val)
			v := core.Strip(st.Val)
			sortedBy := ""
			// (a) result of a function that sorts its result: dict.SortedValues(m, cmp)
			if call, ok := v.(*ssa.Call); ok {
				if callee := call.Call.StaticCallee(); callee != nil {
					on := originName(callee)
					if on == "lib/common/dict.SortedValues" || on == "lib/common/dict.SortedKeys" {
						for _, alt := range oa.comparatorAlts(call.Call.Args[1], 2, core.FuncName(fn)) {
							read := map[string]bool{}
							for _, f := range alt.funcs {
								oa.fieldsRead(f, map[*ssa.Function]bool{}, read)
							}
							if read["Day.Date"] {
								sortedBy = originName(alt.funcs[0])
							}
						}
					}
				}
			}
			// (b) a sort of the same slice dominates the store
			if sortedBy == "" {
				core.EachInstr(fn, func(s ssa.Instruction) {
					sc, ok := s.(*ssa.Call)
					if !ok {
						return
					}
					cs := sc.Call.StaticCallee()
					if cs == nil {
						return
					}
					if spec, isSort := sortSpecOf(cs); isSort && spec.cmp >= 0 && p.SameExpr(core.Strip(sc.Call.Args[spec.slice]), v) && core.Dominates(sc, st) {
						for _, alt := range oa.comparatorAlts(sc.Call.Args[spec.cmp], 2, core.FuncName(fn)) {
							read := map[string]bool{}
							for _, f := range alt.funcs {
								oa.fieldsRead(f, map[*ssa.Function]bool{}, read)
							}
							if read["Day.Date"] {
								sortedBy = originName(alt.funcs[0])
							}
						}
					}
				})
			}
			if sortedBy != "" {
				c.Ob(rule, key, st.Pos(), core.FuncName(fn), core.Discharged, "the days are sorted by "+sortedBy+", which reads Day.Date")
			} else {
				c.Ob(rule, key, st.Pos(), core.FuncName(fn), core.Violated, "Journal.Days is assigned a slice that is not sorted by date: days would be processed in map or arrival order, so account lifecycle and balances are checked in the wrong order")
			}
		})
	}
	c.Floor(rule, 1)
}

// RuleKFifo — the per-item code of a cpr.Seq stage spawns no goroutine: one
// goroutine per stage and unbuffered channels in between give FIFO
// processing of the days.
func RuleKFifo(c *core.Ctx) {
	const rule = "K-fifo"
	p := c.P
	seq := p.Func(pkgCpr, "Seq")
	if seq == nil {
		c.Anchor(rule, "cpr.Seq")
		return
	}
	var fns []*ssa.Function
	for _, inst := range p.Instances(seq.Object()) {
		fns = append(fns, inst)
	}
	if len(fns) == 0 {
		fns = []*ssa.Function{seq}
	}
	n := 0
	for _, top := range fns {
		for _, fn := range core.WithAnon(top) {
			if fn == top {
				continue
			}
			n++
			bad := ""
			core.EachInstr(fn, func(ins ssa.Instruction) {
				switch x := ins.(type) {
				case *ssa.Go:
					bad = "go statement at " + p.Pos(x.Pos())
				case ssa.CallInstruction:
					if callee := x.Common().StaticCallee(); callee != nil && callee.Name() == "Go" && !p.InModule(callee) {
						bad = "call to " + callee.String() + " at " + p.Pos(x.Pos())
					}
				}
			})
			key := originName(fn) + ":no spawn per item"
			if bad == "" {
				c.Ob(rule, key, fn.Pos(), originName(fn), core.Discharged, "no goroutine is started inside the stage code")
			} else {
				c.Ob(rule, key, fn.Pos(), originName(fn), core.Violated, "a stage of cpr.Seq starts goroutines per item ("+bad+"): days are no longer processed in order, so per-day state (open accounts, quantities, prices) is updated out of order")
			}
		}
	}
	if n == 0 {
		c.Anchor(rule, "the stage closures of cpr.Seq")
	}
	c.Floor(rule, 2)
}

var _ = token.NoPos
var _ = strings.Join
