package rules

import (
	"fmt"
	"go/constant"
	"go/token"
	"go/types"
	"sort"

	"golang.org/x/tools/go/ssa"

	"knutlint/core"
)

// RuleKIntervalNames — the names of the intervals mean the same thing to the
// function that prints them and to the function that reads them (the keyword
// of an @accrue annotation): for every constant c of the interval type,
// parse(c.String()) = c. Both functions are evaluated on constants — a switch
// over constants, or a lookup in a package-level map that is filled once with
// constant keys and values — so this is agreement of two tables in the source.
func RuleKIntervalNames(c *core.Ctx) {
	const rule = "K-interval-names"
	p := c.P
	intervalObj, _ := p.Lookup(pkgDate, "Interval").(*types.TypeName)
	if intervalObj == nil {
		c.Anchor(rule, "date.Interval")
		return
	}
	tp := p.Package(pkgDate)
	var consts []int64
	names := map[int64]string{}
	for _, n := range tp.Scope().Names() {
		if cst, ok := tp.Scope().Lookup(n).(*types.Const); ok && types.Identical(cst.Type(), intervalObj.Type()) {
			if v, ok := constant.Int64Val(cst.Val()); ok {
				consts = append(consts, v)
				names[v] = n
			}
		}
	}
	sort.Slice(consts, func(i, j int) bool { return consts[i] < consts[j] })
	// the printer: a method String() string on the interval type; the reader: a
	// function of the package string -> (Interval, error)
	var printer, reader *ssa.Function
	for _, fn := range p.SrcFuncs() {
		if core.PkgPathOf(fn) != pkgDate || fn.Parent() != nil {
			continue
		}
		sig := fn.Signature
		isStr := func(t types.Type) bool {
			b, ok := t.Underlying().(*types.Basic)
			return ok && b.Kind() == types.String
		}
		if sig.Recv() != nil && types.Identical(sig.Recv().Type(), intervalObj.Type()) && fn.Name() == "String" && sig.Results().Len() == 1 && isStr(sig.Results().At(0).Type()) {
			printer = fn
		}
		if sig.Recv() == nil && sig.Params().Len() == 1 && isStr(sig.Params().At(0).Type()) && sig.Results().Len() == 2 && types.Identical(sig.Results().At(0).Type(), intervalObj.Type()) {
			reader = fn
		}
	}
	if printer == nil || reader == nil {
		c.Ob(rule, "date:interval names", 0, "", core.Discharged, "the interval type has no pair of String() and a parsing function: nothing to agree")
		c.Floor(rule, 1)
		return
	}
	for _, cv := range consts {
		key := fmt.Sprintf("%s:%s is read back as itself", core.FuncName(reader), names[cv])
		s, ok := evalConstFunc(p, printer, []any{cv})
		name, isStr := s.(string)
		if !ok || !isStr {
			c.Ob(rule, key, printer.Pos(), core.FuncName(printer), core.Info, "the name of "+names[cv]+" is not a constant this rule can evaluate from "+core.FuncName(printer)+" (a table computed at run time): nothing decided")
			continue
		}
		if name == "" {
			continue // a constant without a name
		}
		r, ok := evalConstFunc(p, reader, []any{name})
		tup, isTup := r.([]any)
		if !ok || !isTup || len(tup) < 1 {
			c.Ob(rule, key, reader.Pos(), core.FuncName(reader), core.Info, fmt.Sprintf("%s(%q) is not evaluable on constants (a table computed at run time): nothing decided", core.FuncName(reader), name))
			continue
		}
		got, isInt := tup[0].(int64)
		if isInt && got == cv {
			c.Ob(rule, key, reader.Pos(), core.FuncName(reader), core.Discharged, fmt.Sprintf("%q → %s", name, names[cv]))
		} else {
			c.Ob(rule, key, reader.Pos(), core.FuncName(reader), core.Violated, fmt.Sprintf("%s prints %s as %q, and %s reads %q as %s: an accrual written with that keyword is expanded over the wrong periods", core.FuncName(printer), names[cv], name, core.FuncName(reader), name, names[got]))
		}
	}
	c.Ob(rule, "date:interval name tables", printer.Pos(), "", core.Discharged, "String() and the parsing function were found; each constant is decided where both are evaluable on constants")
	c.Floor(rule, 1)
}

// evalConstFunc executes a function on constant arguments: comparisons of
// ints and strings, branches, returns of constants, and lookups in a
// package-level map that the package initialiser fills with constants.
func evalConstFunc(p *core.Prog, fn *ssa.Function, args []any) (any, bool) {
	if fn.Blocks == nil || len(args) != len(fn.Params) {
		return nil, false
	}
	env := map[ssa.Value]any{}
	for i, prm := range fn.Params {
		env[prm] = args[i]
	}
	var get func(v ssa.Value) (any, bool)
	get = func(v ssa.Value) (any, bool) {
		v = core.Strip(v)
		if x, ok := env[v]; ok {
			return x, true
		}
		switch x := v.(type) {
		case *ssa.Const:
			if x.Value == nil {
				return nil, true
			}
			switch x.Value.Kind() {
			case constant.Int:
				i, _ := constant.Int64Val(x.Value)
				return i, true
			case constant.String:
				return constant.StringVal(x.Value), true
			case constant.Bool:
				return constant.BoolVal(x.Value), true
			}
		case *ssa.Convert:
			return get(x.X)
		case *ssa.MakeInterface:
			return "non-nil", true
		}
		return nil, false
	}
	var pred *ssa.BasicBlock
	b := fn.Blocks[0]
	for steps := 0; steps < 500; steps++ {
		for _, ins := range b.Instrs {
			switch x := ins.(type) {
			case *ssa.Phi:
				for i, pb := range b.Preds {
					if pb == pred {
						if v, ok := get(x.Edges[i]); ok {
							env[x] = v
						}
					}
				}
			case *ssa.Store:
				if al, ok := x.Addr.(*ssa.Alloc); ok {
					if v, ok := get(x.Val); ok {
						env[al] = v
					}
				}
			case *ssa.UnOp:
				if x.Op == token.MUL {
					if al, ok := x.X.(*ssa.Alloc); ok {
						if v, ok := env[al]; ok {
							env[x] = v
						}
					}
					if g, ok := x.X.(*ssa.Global); ok {
						if tbl, ok := constMapOf(p, g); ok {
							env[x] = tbl
						}
					}
				}
				if x.Op == token.NOT {
					if v, ok := get(x.X); ok {
						if bv, ok := v.(bool); ok {
							env[x] = !bv
						}
					}
				}
			case *ssa.BinOp:
				a, ok1 := get(x.X)
				c2, ok2 := get(x.Y)
				if ok1 && ok2 && (x.Op == token.EQL || x.Op == token.NEQ) {
					eq := a == c2
					if x.Op == token.NEQ {
						eq = !eq
					}
					env[x] = eq
				}
			case *ssa.Lookup:
				m, ok1 := get(x.X)
				k, ok2 := get(x.Index)
				tbl, isTbl := m.(map[any]any)
				if ok1 && ok2 && isTbl {
					val, found := tbl[k]
					if !found {
						val = int64(0)
					}
					if x.CommaOk {
						env[x] = []any{val, found}
					} else {
						env[x] = val
					}
				}
			case *ssa.Extract:
				if t, ok := env[x.Tuple].([]any); ok && x.Index < len(t) {
					env[x] = t[x.Index]
				}
			}
		}
		switch t := b.Instrs[len(b.Instrs)-1].(type) {
		case *ssa.If:
			cv, ok := get(t.Cond)
			bv, isBool := cv.(bool)
			if !ok || !isBool {
				return nil, false
			}
			pred = b
			if bv {
				b = b.Succs[0]
			} else {
				b = b.Succs[1]
			}
		case *ssa.Jump:
			pred, b = b, b.Succs[0]
		case *ssa.Return:
			if len(t.Results) == 1 {
				return get(t.Results[0])
			}
			var tup []any
			for _, r := range t.Results {
				v, _ := get(r)
				tup = append(tup, v)
			}
			return tup, true
		default:
			return nil, false
		}
	}
	return nil, false
}

// constMapOf: the contents of a package-level map variable that is assigned
// once, in the package initialiser, a map built from constant keys and values.
func constMapOf(p *core.Prog, g *ssa.Global) (map[any]any, bool) {
	if g.Pkg == nil {
		return nil, false
	}
	init := g.Pkg.Func("init")
	if init == nil {
		return nil, false
	}
	// written anywhere else?
	for _, fn := range p.SrcFuncs() {
		if fn == init || !p.InModule(fn) {
			continue
		}
		written := false
		core.EachInstr(fn, func(ins ssa.Instruction) {
			if st, ok := ins.(*ssa.Store); ok && st.Addr == ssa.Value(g) {
				written = true
			}
		})
		if written {
			return nil, false
		}
	}
	var mk *ssa.MakeMap
	core.EachInstr(init, func(ins ssa.Instruction) {
		if st, ok := ins.(*ssa.Store); ok && st.Addr == ssa.Value(g) {
			mk, _ = st.Val.(*ssa.MakeMap)
		}
	})
	if mk == nil || mk.Referrers() == nil {
		return nil, false
	}
	res := map[any]any{}
	for _, r := range *mk.Referrers() {
		mu, ok := r.(*ssa.MapUpdate)
		if !ok {
			continue
		}
		k, ok1 := mu.Key.(*ssa.Const)
		v, ok2 := mu.Value.(*ssa.Const)
		if !ok1 || !ok2 || k.Value == nil || v.Value == nil {
			return nil, false
		}
		var kk, vv any
		switch k.Value.Kind() {
		case constant.String:
			kk = constant.StringVal(k.Value)
		case constant.Int:
			kk, _ = constant.Int64Val(k.Value)
		}
		switch v.Value.Kind() {
		case constant.String:
			vv = constant.StringVal(v.Value)
		case constant.Int:
			vv, _ = constant.Int64Val(v.Value)
		}
		res[kk] = vv
	}
	return res, true
}
