package rules

import (
	"fmt"
	"strings"

	"golang.org/x/tools/go/ssa"

	"knutlint/core"
)

// stdoutUse: instruction obtains or uses the process's standard output.
func stdoutUse(ins ssa.Instruction) string {
	for _, op := range ins.Operands(nil) {
		if g, ok := (*op).(*ssa.Global); ok && g.Pkg != nil && g.Pkg.Pkg.Path() == "os" && g.Name() == "Stdout" {
			return "os.Stdout"
		}
	}
	if call, ok := ins.(ssa.CallInstruction); ok {
		if name, bad := isImplicitStdoutCall(call); bad {
			return name
		}
		if obj := core.CalleeObj(call); obj != nil && obj.Pkg() != nil && obj.Pkg().Path() == "github.com/spf13/cobra" && obj.Name() == "OutOrStdout" {
			return "cmd.OutOrStdout()"
		}
	}
	return ""
}

// RuleDOutAfter — a failing report command leaves standard output empty: in
// balance, print, transcode, check and infer every use of standard output is
// dominated by the success of loading the journal and of every
// Journal.Process call of the command, and nothing reachable from a
// processor callback of these commands writes to standard output.
func RuleDOutAfter(c *core.Ctx) {
	const rule = "D-out-after"
	p := c.P
	fromPath := p.Func(pkgJournal, "FromPath")
	processFn := p.Func(pkgJournal, "Journal.Process")
	if fromPath == nil || processFn == nil {
		c.Anchor(rule, "journal.FromPath / Journal.Process")
		return
	}
	strict := map[string]bool{"balance": true, "print": true, "transcode": true, "check": true, "infer": true}
	n := 0
	for _, cmd := range core.Commands(c) {
		if cmd.Run == nil || !(strict[cmd.Use] || cmd.Use == "returns" || cmd.Use == "weights") {
			continue
		}
		reach := p.ReachLexical(cmd.Run)
		// (1) in the command's own functions (package cmd/...): stdout uses after the fallible steps
		for fn := range reach {
			if !p.InModule(fn) || !strings.HasPrefix(core.PkgPathOf(fn), core.Module+"/cmd/") || fn.Blocks == nil {
				continue
			}
			// fallible steps in this function
			var steps []*ssa.Call
			core.EachInstr(fn, func(ins ssa.Instruction) {
				if call, ok := ins.(*ssa.Call); ok {
					callee := call.Call.StaticCallee()
					if callee == fromPath || callee == processFn {
						steps = append(steps, call)
					}
					// infer: train / parseAndInfer / syntax.ParseFile
					if callee != nil && p.InModule(callee) && cmd.Use == "infer" && len(errValues(call)) > 0 && (strings.Contains(callee.Name(), "train") || strings.Contains(callee.Name(), "parseAndInfer")) {
						steps = append(steps, call)
					}
				}
			})
			core.EachInstr(fn, func(ins ssa.Instruction) {
				what := stdoutUse(ins)
				if what == "" {
					return
				}
				n++
				key := fmt.Sprintf("%s:%s:%s after the fallible steps", cmd.Use, core.FuncName(fn), what)
				var bad []string
				for _, st := range steps {
					ok := false
					for _, e := range errValues(st) {
						for _, sb := range core.ErrSuccessBlocks(e) {
							if sb == ins.Block() || sb.Dominates(ins.Block()) {
								ok = true
							}
						}
					}
					if !ok {
						bad = append(bad, calleeText(st)+" at "+p.Pos(st.Pos()))
					}
				}
				v := core.Violated
				if !strict[cmd.Use] {
					v = core.Info
				}
				if len(bad) == 0 {
					c.Ob(rule, key, ins.Pos(), core.FuncName(fn), core.Discharged, fmt.Sprintf("dominated by the success of %d fallible steps", len(steps)))
				} else {
					c.Ob(rule, key, ins.Pos(), core.FuncName(fn), v, "standard output is used although "+strings.Join(bad, ", ")+" may still fail: a failing command would leave partial output")
				}
			})
		}
		// (2) nothing under the processor callbacks writes to stdout
		for _, pl := range pipelines(c) {
			if !reach[pl.fn] || !strings.HasPrefix(core.PkgPathOf(pl.fn), core.Module+"/cmd/") {
				continue
			}
			for _, st := range pl.stages {
				for cbName, cb := range st.callbacks {
					sub := p.ReachLexical(cb)
					for fn := range sub {
						if !p.InModule(fn) || fn.Blocks == nil {
							continue
						}
						core.EachInstr(fn, func(ins ssa.Instruction) {
							what := stdoutUse(ins)
							if what == "" {
								return
							}
							key := fmt.Sprintf("%s:stage %s.%s writes to stdout", cmd.Use, st.name(), cbName)
							if strict[cmd.Use] {
								c.Ob(rule, key, ins.Pos(), core.FuncName(fn), core.Violated, what+" in "+core.FuncName(fn)+" is reachable from a processor callback: output appears while later days can still fail")
							} else {
								c.Ob(rule, key, ins.Pos(), core.FuncName(fn), core.Info, what+" in a processor callback of `portfolio "+cmd.Use+"` (the property's empty-stdout clause names balance, print, transcode, infer, check --write only)")
							}
						})
					}
				}
			}
		}
	}
	c.Floor(rule, 5)
}
