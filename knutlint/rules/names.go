package rules

// ByName lists every rule under its DESIGN.md id (for -rules and for docs).
var ByName = map[string]Rule{
	"B1":                  RuleB1,
	"D-div":               RuleDDiv,
	"C-sparse":            RuleCSparse,
	"F-acct-types":        RuleFAcctTypes,
	"C-stdout":            RuleCStdout,
	"D-days-before-build": RuleDDaysBeforeBuild,
	"D-flagint":           RuleDFlagInt,
	"D-nilflag":           RuleDNilFlag,
	"D-recursion":         RuleDRecursion,
	"C-infer":             RuleCInfer,
	"C-infer-fresh":       RuleCInferFresh,
	"K-zero-flow":         RuleKZeroFlow,
	"dump-mapranges":      RuleDumpMapRanges,
	"A-order":             RuleAOrder,
	"dump-path":           RuleDumpPath,
	"A-arrival":           RuleAArrival,
	"C-posting":           RuleCPosting,
	"C-value":             RuleCValue,
	"J-pair":              RuleJPair,
	"J-valuation":         RuleJValuation,
	"C-postings":          RuleCPostings,
	"K-daytx":             RuleKDayTx,
	"K-insert":            RuleKInsert,
	"K-delta":             RuleKDelta,
}
